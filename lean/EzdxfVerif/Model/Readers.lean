/-
C08  Tag-level models of the DXF readers of ezdxf and of the tag structure the writers emit.

A file is a list of tags `(code, value)`; values are strings as delivered by the low level loaders
(text decoding is C09's subject, value typing and point compilation C03's).  What is modelled here is the
part every reader re-implements on its own: finding the sections, cutting the ENTITIES section into entities
at the code-0 tags, linking VERTEX/ATTRIB/SEQEND to their POLYLINE/INSERT, and dropping paperspace entities.

  Spec                   : `render` (sections -> file), `groupTags`, `Spec.link`, `Spec.modelspace`
  strict reader          : lldxf/tagger.py ascii_tags_loader + tag_compiler (code-0 strip), lldxf/tags.py group_tags,
                           lldxf/loader.py load_dxf_structure, sections/entities.py EntitySection._build
  iterdxf.modelspace     : addons/iterdxf.py modelspace()
  single_pass_modelspace : addons/iterdxf.py single_pass_modelspace() + binary_tagger()
  opendxf / IterDXF      : lldxf/fileindex.py load(), addons/iterdxf.py IterDXF._load_index/__init__/modelspace/load_entities
  recover                : recover.py bytes_loader (tag level), byte_tag_compiler (code-0 strip+upper),
                           Recover.rebuild_sections / load_section_dict, then the strict `_build`
  entity linker          : entities/subentity.py entity_linker
  JSON tags              : lldxf/tagger.py json_tag_loader, lldxf/tagwriter.py JSONTagWriter (tag structure)
  r12writer              : addons/r12writer.py R12FastStreamWriter (tag structure of the call sequence)
  iterdxf exporter       : addons/iterdxf.py IterDXF.export / IterDXFWriter.write / close (tag structure)

`factory.load` (entity attribute loading, C01) is abstract: a `Cfg` supplies the three facts the readers take
from a loaded entity (`paperspace` flag, the strict loader's owner-handle priority, `attribs_follow`) and the
set of requested DXF types.  Core Lean only.
-/
namespace EzdxfVerif.Readers

structure Tag where
  code : Nat
  val : String
  deriving DecidableEq, Repr

abbrev Group := List Tag

inductive Err where
  | dxfStructureError | indexError
  deriving DecidableEq, Repr

deriving instance DecidableEq for Except

def tSECTION : Tag := ⟨0, "SECTION"⟩
def tENDSEC : Tag := ⟨0, "ENDSEC"⟩
def tEOF : Tag := ⟨0, "EOF"⟩

/-- `tags[0].value` / `ExtendedTags.dxftype()` -/
def dxftype (g : Group) : String :=
  match g with
  | [] => ""
  | t :: _ => t.val

structure Ent where
  main : Group
  subs : List Group
  seqend : Option Group
  deriving DecidableEq, Repr

def Ent.single (g : Group) : Ent := ⟨g, [], none⟩

/-- what the readers take from `factory.load(ExtendedTags(tags))` -/
structure Cfg where
  /-- `bool(entity)` at the moment it is yielded (`if queued: yield queued`): entities with `__len__`
      (POLYLINE: linked vertices, LWPOLYLINE, MLINE) are falsy when empty -/
  truthy : Ent → Bool
  /-- `entity.dxf.paperspace != 0` (iterdxf readers) -/
  psp : Group → Bool
  /-- `EntitySection._build.add`: owner handle first, paperspace flag as fallback (Drawing readers) -/
  pspS : Group → Bool
  /-- `entity.dxf.get("attribs_follow", 0)` is truthy -/
  af : Group → Bool
  /-- `value in requested_types` (iterdxf.SUPPORTED_TYPES for `types=None`) -/
  req : String → Bool
  /-- `str.strip()` of tag_compiler for code 0 -/
  strip : String → String
  /-- `bytes.strip()` of byte_tag_compiler for code 0 -/
  stripB : String → String
  /-- `bytes.upper()` of byte_tag_compiler for code 0 -/
  upper : String → String
  /-- `name in const.MANAGED_SECTIONS` -/
  managed : String → Bool

/-! ## Spec -/

structure Section where
  name : String
  body : List Tag
  deriving DecidableEq, Repr

def renderSec (s : Section) : List Tag :=
  tSECTION :: ⟨2, s.name⟩ :: (s.body ++ [tENDSEC])

/-- what `Drawing.export_sections` / r12writer / r12export / IterDXFWriter emit: sections, then EOF -/
def render (secs : List Section) : List Tag :=
  secs.flatMap renderSec ++ [tEOF]

theorem dropWhile_length_le {α : Type} (p : α → Bool) (l : List α) : (l.dropWhile p).length ≤ l.length := by
  induction l with
  | nil => simp
  | cons a r ih =>
    simp only [List.dropWhile]
    split
    · simp only [List.length_cons]; omega
    · simp

/-- not a structure tag -/
def nz (t : Tag) : Bool := t.code != 0

/-- `entity.dxftype() == ty` -/
def hasType (ty : String) (g : List Tag) : Bool :=
  match g with
  | [] => ty == ""
  | t :: _ => t.val == ty

/-- `group_tags(tags, splitcode=0)`: a group is a code-0 tag and the run of tags up to the next code-0 tag;
    tags in front of the first code-0 tag are skipped -/
def groupTags : List Tag → List Group
  | [] => []
  | t :: r =>
    if t.code = 0 then
      (t :: r.takeWhile nz) :: groupTags (r.dropWhile nz)
    else groupTags r
termination_by l => l.length
decreasing_by
  all_goals simp_wf
  · have := dropWhile_length_le nz r; omega


/-- `LINKED_ENTITIES = {"INSERT": "ATTRIB", "POLYLINE": "VERTEX"}` with the `attribs_follow` exception:
    the sub-entity type a main entity expects, `none` for an entity that starts no linked structure -/
def expects (cfg : Cfg) (g : Group) : Option String :=
  if dxftype g = "POLYLINE" then some "VERTEX"
  else if dxftype g = "INSERT" then (if cfg.af g then some "ATTRIB" else none)
  else none

/-- declarative linking: a main entity takes the maximal run of sub-entities of its expected type and the SEQEND
    that follows; without SEQEND (other entity or end of section) it stays open -/
def Spec.link (cfg : Cfg) : List Group → List Ent
  | [] => []
  | g :: rest =>
    match expects cfg g with
    | none => Ent.single g :: Spec.link cfg rest
    | some exp =>
      match h : rest.dropWhile (hasType exp) with
      | [] => [⟨g, rest.takeWhile (hasType exp), none⟩]
      | s :: rest' =>
        if dxftype s = "SEQEND" then
          ⟨g, rest.takeWhile (hasType exp), some s⟩ :: Spec.link cfg rest'
        else
          ⟨g, rest.takeWhile (hasType exp), none⟩ :: Spec.link cfg (s :: rest')
termination_by l => l.length
decreasing_by
  all_goals simp_wf
  · have := dropWhile_length_le (hasType exp) rest
    rw [h] at this; simp only [List.length_cons] at this; omega
  · have := dropWhile_length_le (hasType exp) rest
    rw [h] at this; simp only [List.length_cons] at this; omega

/-- the linked structures are complete: every open main entity is closed by SEQEND or reaches the end of the section
    (otherwise `entity_linker` raises DXFStructureError) -/
def LinkOK (cfg : Cfg) : List Group → Bool
  | [] => true
  | g :: rest =>
    match expects cfg g with
    | none => LinkOK cfg rest
    | some exp =>
      match h : rest.dropWhile (hasType exp) with
      | [] => true
      | s :: rest' => dxftype s = "SEQEND" && LinkOK cfg rest'
termination_by l => l.length
decreasing_by
  all_goals simp_wf
  · have := dropWhile_length_le (hasType exp) rest
    rw [h] at this; simp only [List.length_cons] at this; omega

def Spec.body (secs : List Section) (name : String) : List Tag :=
  match secs.find? (fun s => s.name = name) with
  | some s => s.body
  | none => []

def Spec.entities (secs : List Section) : List Group := groupTags (Spec.body secs "ENTITIES")

/-- the modelspace content all readers have to deliver (restricted to the requested types) -/
def Spec.modelspace (cfg : Cfg) (secs : List Section) : List Ent :=
  (Spec.link cfg (Spec.entities secs)).filter (fun e => cfg.req (dxftype e.main) && !cfg.psp e.main)

/-- the same, as the iterdxf readers deliver it on the unchanged tree: falsy entities are not yielded -/
def Spec.modelspaceTruthy (cfg : Cfg) (secs : List Section) : List Ent :=
  (Spec.modelspace cfg secs).filter cfg.truthy

/-! ## well-formedness: what the readers rely on -/

/-- a group as `group_tags` yields it: a structure tag followed by non-structure tags -/
def groupOK (g : Group) : Bool :=
  match g with
  | [] => false
  | t :: ts => t.code == 0 && ts.all nz

def Ent.groups (e : Ent) : List Group := e.main :: (e.subs ++ e.seqend.toList)

/-- the tags an entity list occupies in the ENTITIES section -/
def flatEnts (es : List Ent) : List Tag := (es.flatMap Ent.groups).flatten

/-- `e` is what the linker builds: no sub-entities unless the main entity expects them, sub-entities of the expected
    type, SEQEND of type SEQEND -/
def entWF (cfg : Cfg) (e : Ent) : Bool :=
  match expects cfg e.main with
  | none => e.subs.isEmpty && e.seqend.isNone
  | some exp => e.subs.all (hasType exp) && (match e.seqend with | some q => hasType "SEQEND" q | none => true)

/-- a main entity that expects sub-entities but has no SEQEND -/
def Ent.isOpen (cfg : Cfg) (e : Ent) : Bool := (expects cfg e.main).isSome && e.seqend.isNone

/-- entity list of a well-formed ENTITIES section: only the last entity may be open -/
def EntsWF (cfg : Cfg) : List Ent → Bool
  | [] => true
  | [e] => entWF cfg e
  | e :: r => entWF cfg e && !e.isOpen cfg && EntsWF cfg r

/-- every group of every entity is a proper group and its type is not a structure keyword -/
def entGroupsOK (es : List Ent) : Bool :=
  es.all (fun e => e.groups.all (fun g =>
    groupOK g && dxftype g != "SECTION" && dxftype g != "ENDSEC" && dxftype g != "EOF"))

/-- no tag of the body opens or closes a section or ends the file -/
def bodyOK (b : List Tag) : Bool :=
  b.all (fun t => !(t.code == 0 && (t.val == "SECTION" || t.val == "ENDSEC" || t.val == "EOF")))

/-- HEADER section as the streaming readers need it: no structure tags, and the last tag is not a `$ACADVER` /
    `$DWGCODEPAGE` name without value (fileindex.load would read the ENDSEC tag as its value) -/
def headerOK (b : List Tag) : Bool :=
  b.all nz && (match b.getLast? with
    | some t => !(t.code == 9 && (t.val == "$ACADVER" || t.val == "$DWGCODEPAGE"))
    | none => true)

/-- every group code is accepted by fileindex.load -/
def codesOK (maxCode : Nat) (f : List Tag) : Bool := f.all (fun t => t.code ≤ maxCode)

/-- an entity without its last group (SEQEND, else the last sub-entity, else the entity itself) -/
def Ent.dropLast (e : Ent) : Option Ent :=
  match e.seqend with
  | some _ => some { e with seqend := none }
  | none => if e.subs.isEmpty then none else some { e with subs := e.subs.dropLast }

/-- the entity list of an ENTITIES section that lost its last group -/
def dropLastGroup : List Ent → List Ent
  | [] => []
  | [e] => e.dropLast.toList
  | e :: r => e :: dropLastGroup r

def isVerVar (t : Tag) : Bool := t.code == 9 && (t.val == "$ACADVER" || t.val == "$DWGCODEPAGE")

/-- `$ACADVER` as the sequential scan of fileindex.load sees it in a HEADER section (the tag after a `$ACADVER` /
    `$DWGCODEPAGE` name is its value, whatever it is) -/
def hdrVersion (v : String) : List Tag → String
  | [] => v
  | [_] => v
  | t :: x :: r =>
    if isVerVar t then hdrVersion (if t.val = "$ACADVER" then x.val else v) r
    else hdrVersion v (x :: r)

/-- DXF version of a file = `$ACADVER` of its HEADER section(s), AC1009 without -/
def Spec.version (secs : List Section) : String :=
  secs.foldl (fun v s => if s.name = "HEADER" then hdrVersion v s.body else v) "AC1009"

/-- a file with exactly one ENTITIES section, given by its linked entities -/
def fileOf (pre : List Section) (es : List Ent) (post : List Section) : List Tag :=
  render (pre ++ ⟨"ENTITIES", flatEnts es⟩ :: post)

/-! ## decidable well-formedness of a flat file -/

/-- the tags up to the closing ENDSEC, and the rest of the file behind it -/
def parseBody : List Tag → Option (List Tag × List Tag)
  | [] => none
  | t :: r =>
    if t = tENDSEC then some ([], r)
    else if t.code = 0 ∧ (t.val = "SECTION" ∨ t.val = "ENDSEC" ∨ t.val = "EOF") then none
    else match parseBody r with
      | some (b, r') => some (t :: b, r')
      | none => none

theorem parseBody_length (l b r : List Tag) (h : parseBody l = some (b, r)) : r.length < l.length := by
  induction l generalizing b r with
  | nil => simp [parseBody] at h
  | cons t l ih =>
    simp only [parseBody] at h
    split at h
    · simp only [Option.some.injEq, Prod.mk.injEq] at h; rw [← h.2]; simp
    · split at h
      · simp at h
      · split at h
        · rename_i b' r' heq
          simp only [Option.some.injEq, Prod.mk.injEq] at h
          have := ih b' r' heq
          rw [← h.2]; simp only [List.length_cons]; omega
        · simp at h

/-- `SECTION, (2, name), body, ENDSEC` repeated, then `EOF` and nothing else -/
def parseFile : List Tag → Option (List Section)
  | [] => none
  | t :: r =>
    if t = tEOF then (if r = [] then some [] else none)
    else if t = tSECTION then
      match r with
      | [] => none
      | n :: r2 =>
        if n.code = 2 then
          match h : parseBody r2 with
          | some (b, r3) => (parseFile r3).map (fun secs => ⟨n.val, b⟩ :: secs)
          | none => none
        else none
    else none
termination_by l => l.length
decreasing_by
  have := parseBody_length r2 b r3 h
  simp only [List.length_cons]; omega

/-- the sections in front of the first ENTITIES section, its body, the sections behind it -/
def splitEnt : List Section → Option (List Section × List Tag × List Section)
  | [] => none
  | s :: r =>
    if s.name = "ENTITIES" then some ([], s.body, r)
    else match splitEnt r with
      | some (pre, b, post) => some (s :: pre, b, post)
      | none => none

/-- what fileindex.load / single_pass_modelspace need of a section that is not ENTITIES -/
def secOK (m : Nat) (s : Section) : Bool :=
  s.name != "ENTITIES" && codesOK m s.body && (s.name != "HEADER" || headerOK s.body)

/-! ## low level loaders (tag level) -/

/-- `ascii_tags_loader` / `bytes_loader`: comments (999) are skipped, nothing is read beyond `(0, EOF)` -/
def asciiLoad : List Tag → List Tag
  | [] => []
  | t :: r =>
    if t = tEOF then [t]
    else if t.code = 999 then asciiLoad r
    else t :: asciiLoad r

/-- `tag_compiler`: `x.value.strip()` for code 0 (points and value types: C03) -/
def compile (cfg : Cfg) (ts : List Tag) : List Tag :=
  ts.map (fun t => if t.code = 0 then ⟨0, cfg.strip t.val⟩ else t)

/-- `byte_tag_compiler`: `x.value.strip().upper()` for code 0 -/
def compileB (cfg : Cfg) (ts : List Tag) : List Tag :=
  ts.map (fun t => if t.code = 0 then ⟨0, cfg.upper (cfg.stripB t.val)⟩ else t)

/-- Decidable well-formedness of a file: what the readers rely on.
    sections bracketed and closed by EOF (`parseFile`); exactly one ENTITIES section; no comments; group codes
    accepted by fileindex; HEADER without structure tags and without a dangling `$ACADVER`; ENTITIES body starts
    with a structure tag, its linked structures are complete (`LinkOK`), the paperspace flag agrees with the owner
    handle; a file newer than R12 has an OBJECTS section; structure tags carry no padding and are upper case. -/
def FileWF' (cfg : Cfg) (m : Nat) (f : List Tag) : Bool :=
  match parseFile f with
  | none => false
  | some secs =>
    match splitEnt secs with
    | none => false
    | some (pre, body, post) =>
      (pre ++ post).all (secOK m) && codesOK m body
        && f.all (fun t => t.code != 999)
        && (match body.head? with | some t => t.code == 0 | none => true)
        && LinkOK cfg (groupTags body)
        && (groupTags body).all (fun g => cfg.pspS g == cfg.psp g)
        && (!decide ("AC1009" < Spec.version secs) || (pre ++ post).any (fun s => s.name == "OBJECTS"))
        && compile cfg f == f && compileB cfg f == f
        && cfg.managed "ENTITIES"

/-- the requested types contain the linked structures completely (true for SUPPORTED_TYPES, `types=None`) -/
def ReqLinked (cfg : Cfg) : Prop :=
  cfg.req "POLYLINE" = true ∧ cfg.req "INSERT" = true ∧ cfg.req "VERTEX" = true ∧ cfg.req "ATTRIB" = true ∧
    cfg.req "SEQEND" = true

/-- what the iterdxf readers deliver of a list of linked entities: requested type, not paperspace, truthy -/
def delivered (cfg : Cfg) (es : List Ent) : List Ent :=
  (es.filter (fun e => cfg.req (dxftype e.main) && !cfg.psp e.main)).filter cfg.truthy

/-- the linked entities of the ENTITIES section of a flat file (`[]` if the file does not parse) -/
def Spec.linked (cfg : Cfg) (f : List Tag) : List Ent :=
  match parseFile f with
  | some secs => Spec.link cfg (Spec.entities secs)
  | none => []

/-- the modelspace content of a flat file (restricted to the requested types) -/
def Spec.ofFile (cfg : Cfg) (f : List Tag) : List Ent :=
  match parseFile f with
  | some secs => Spec.modelspace cfg secs
  | none => []

/-- a result restricted to the requested types (the Drawing readers load every type) -/
def onlyReq (cfg : Cfg) : Except Err (List Ent) → Except Err (List Ent)
  | .ok es => .ok (es.filter (fun e => cfg.req (dxftype e.main)))
  | .error e => .error e

/-! ## entity linker + the two consumers of its verdict -/

/-- `dict.__setitem__` on an insertion ordered dict -/
def dictSet {β : Type} (d : List (String × β)) (k : String) (v : β) : List (String × β) :=
  match d with
  | [] => [(k, v)]
  | (k', v') :: r => if k' = k then (k, v) :: r else (k', v') :: dictSet r k v

def dictGet {β : Type} (d : List (String × β)) (k : String) : Option β :=
  match d with
  | [] => none
  | (k', v') :: r => if k' = k then some v' else dictGet r k

/-- state of `entity_linker`: the expected sub-entity type while a main entity is open, and where that main
    entity lives (`true`: it is the entity the consumer still holds, `false`: the consumer dropped it) -/
abbrev LinkSt := Option (String × Bool)

def Ent.addSub (e : Ent) (g : Group) : Ent := { e with subs := e.subs ++ [g] }
def Ent.setSeqend (e : Ent) (g : Group) : Ent := { e with seqend := some g }

/-- the body of the three iterdxf loops after `entity = factory.load(...)`:
    `if not linked_entity(entity) and entity.dxf.paperspace == 0: (if queued: yield queued); queued = entity` -/
structure QSt where
  out : List Ent          -- yielded so far, latest first
  queued : Option Ent
  link : LinkSt
  deriving Repr

def QSt.init : QSt := ⟨[], none, none⟩

def qStep (cfg : Cfg) (st : QSt) (g : Group) : Except Err QSt :=
  match st.link with
  | some (exp, held) =>
    -- main_entity is not None: the entity is linked or the structure is broken
    if dxftype g = "SEQEND" then
      .ok { st with queued := if held then st.queued.map (·.setSeqend g) else st.queued, link := none }
    else if dxftype g = exp then
      .ok { st with queued := if held then st.queued.map (·.addSub g) else st.queued }
    else .error .dxfStructureError
  | none =>
    let link' : LinkSt := (expects cfg g).map (fun exp => (exp, !cfg.psp g))
    if cfg.psp g then .ok { st with link := link' }
    else .ok { out := (st.queued.filter cfg.truthy).toList ++ st.out, queued := some (Ent.single g), link := link' }

/-- `if len(tags) and tags[0].value in requested_types: entity = factory.load(...); ...` -/
def qLoad (cfg : Cfg) (st : QSt) (tags : Group) : Except Err QSt :=
  match tags with
  | [] => .ok st
  | t :: _ => if cfg.req t.val then qStep cfg st tags else .ok st

def qLoop (cfg : Cfg) (st : QSt) : List Group → Except Err QSt
  | [] => .ok st
  | g :: r => match qLoad cfg st g with
    | .ok st' => qLoop cfg st' r
    | .error e => .error e

/-- `if queued: yield queued` + `return` -/
def QSt.finish (cfg : Cfg) (st : QSt) : List Ent := st.out.reverse ++ (st.queued.filter cfg.truthy).toList

/-- `EntitySection._build`: `if not linked_entities(entity): add(entity)`; the spaces hold the main entities,
    which `link_entity` / `link_seqend` mutate afterwards -/
structure BSt where
  msp : List Ent          -- latest first
  psp : List Ent
  link : LinkSt           -- flag: the open main entity is the head of `msp` (else of `psp`)
  deriving Repr

def updHead (f : Ent → Ent) : List Ent → List Ent
  | [] => []
  | e :: r => f e :: r

def bStep (cfg : Cfg) (st : BSt) (g : Group) : Except Err BSt :=
  match st.link with
  | some (exp, inMsp) =>
    if dxftype g = "SEQEND" then
      .ok (if inMsp then { st with msp := updHead (·.setSeqend g) st.msp, link := none }
           else { st with psp := updHead (·.setSeqend g) st.psp, link := none })
    else if dxftype g = exp then
      .ok (if inMsp then { st with msp := updHead (·.addSub g) st.msp }
           else { st with psp := updHead (·.addSub g) st.psp })
    else .error .dxfStructureError
  | none =>
    let link' : LinkSt := (expects cfg g).map (fun exp => (exp, !cfg.pspS g))
    if cfg.pspS g then .ok { st with psp := Ent.single g :: st.psp, link := link' }
    else .ok { st with msp := Ent.single g :: st.msp, link := link' }

def bLoop (cfg : Cfg) (st : BSt) : List Group → Except Err BSt
  | [] => .ok st
  | g :: r => match bStep cfg st g with
    | .ok st' => bLoop cfg st' r
    | .error e => .error e

/-- modelspace of a loaded Drawing, given the entity groups of the ENTITIES section (without the section head) -/
def buildMsp (cfg : Cfg) (gs : List Group) : Except Err (List Ent) :=
  match bLoop cfg ⟨[], [], none⟩ gs with
  | .ok st => .ok st.msp.reverse
  | .error e => .error e

/-! ## strict reader: `load_dxf_structure` -/

structure SSt where
  sections : List (String × List Group)
  sect : List Group       -- in order
  eof : Bool
  deriving Repr

def insideSection (sect : List Group) : Bool :=
  match sect with
  | (t :: _) :: _ => t = tSECTION
  | _ => false

def sStep (st : SSt) (e : Group) : Except Err SSt :=
  match e with
  | [] => .ok st                     -- group_tags never yields an empty group
  | tag :: _ =>
    if tag = tSECTION then
      if insideSection st.sect then .error .dxfStructureError       -- missing ENDSEC
      else .ok { st with sect := [e] }
    else if tag = tENDSEC then
      if !insideSection st.sect then .error .dxfStructureError      -- ENDSEC without SECTION
      else
        match st.sect with
        | (_ :: name :: _) :: _ =>
          if name.code ≠ 2 then .error .dxfStructureError           -- missing section name tag
          else .ok { st with sections := dictSet st.sections name.val st.sect, sect := [] }
        | _ => .error .dxfStructureError
    else if tag = tEOF then .ok { st with eof := true }
    else .ok { st with sect := st.sect ++ [e] }

def sLoop (st : SSt) : List Group → Except Err SSt
  | [] => .ok st
  | e :: r => match sStep st e with
    | .ok st' => sLoop st' r
    | .error x => .error x

/-- `load_dxf_structure(tagger)` on the compiled tags -/
def loadStructure (ts : List Tag) : Except Err (List (String × List Group)) :=
  match sLoop ⟨[], [], false⟩ (groupTags ts) with
  | .ok st =>
    if insideSection st.sect then .error .dxfStructureError         -- missing ENDSEC
    else if !st.eof then .error .dxfStructureError                  -- missing EOF
    else .ok st.sections
  | .error e => .error e

/-- the ENTITIES part of `Drawing._load_section_dict` -/
def dictModelspace (cfg : Cfg) (d : List (String × List Group)) : Except Err (List Ent) :=
  match dictGet d "ENTITIES" with
  | none => .ok []
  | some sect => buildMsp cfg sect.tail

/-- `ezdxf.read` / `readfile` (ASCII), modelspace -/
def strictModelspace (cfg : Cfg) (f : List Tag) : Except Err (List Ent) :=
  match loadStructure (compile cfg (asciiLoad f)) with
  | .ok d => dictModelspace cfg d
  | .error e => .error e

/-! ## iterdxf.modelspace() -/

/-- the loop after `entities` became True; `tags` is the group under construction -/
def iterInside (cfg : Cfg) (tags : Group) (st : QSt) : List Tag → Except Err (List Ent)
  | [] => .ok st.out.reverse          -- the stream ends without ENDSEC: the queued entity is never yielded
  | t :: r =>
    if t.code = 0 then
      match qLoad cfg st tags with
      | .error e => .error e
      | .ok st' =>
        if t.val = "ENDSEC" then .ok (st'.finish cfg)
        else iterInside cfg [t] st' r
    else iterInside cfg (tags ++ [t]) st r

/-- the loop while `entities` is False -/
def iterOutside (cfg : Cfg) (prevCode : Int) (prevVal : String) : List Tag → Except Err (List Ent)
  | [] => .ok []
  | t :: r =>
    if t.code = 2 ∧ prevCode = 0 ∧ prevVal = "SECTION" ∧ t.val = "ENTITIES" then iterInside cfg [] QSt.init r
    else iterOutside cfg t.code t.val r

def iterModelspace (cfg : Cfg) (f : List Tag) : Except Err (List Ent) :=
  iterOutside cfg (-1) "" (compile cfg (asciiLoad f))

/-! ## iterdxf.single_pass_modelspace() -/

/-- first loop: raw tags of `binary_tagger(stream)`; result = (`entities`, `prev_code`, unread tags).
    `binary_tagger` raises DXFStructureError at the end of the stream (`int(b"")`). -/
def spHeader (prevCode : Int) : List Tag → Except Err (Bool × Int × List Tag)
  | [] => .error .dxfStructureError
  | t :: r =>
    if t.code = 0 ∧ t.val = "ENDSEC" then .ok (false, prevCode, r)
    else if t.code = 2 ∧ prevCode = 0 ∧ t.val ≠ "HEADER" then .ok (t.val = "ENTITIES", prevCode, r)
    else spHeader t.code r

/-- second loop inside the ENTITIES section.  `flush` = the pending group is loaded when ENDSEC arrives
    (`false` on the unchanged tree: ENDSEC is tested first and the last entity of the section is lost) -/
def spInside (cfg : Cfg) (flush : Bool) (tags : Group) (st : QSt) : List Tag → Except Err (List Ent)
  | [] => .error .dxfStructureError
  | t :: r =>
    if t.code = 0 ∧ t.val = "ENDSEC" then
      if flush then
        match qLoad cfg st tags with
        | .error e => .error e
        | .ok st' => .ok (st'.finish cfg)
      else .ok (st.finish cfg)
    else if t.code = 0 then
      match qLoad cfg st tags with
      | .error e => .error e
      | .ok st' => spInside cfg flush [t] st' r
    else spInside cfg flush (tags ++ [t]) st r

def spOutside (cfg : Cfg) (flush : Bool) (prevCode : Int) (prevVal : String) : List Tag → Except Err (List Ent)
  | [] => .error .dxfStructureError
  | t :: r =>
    if t.code = 2 ∧ prevCode = 0 ∧ prevVal = "SECTION" ∧ t.val = "ENTITIES" then spInside cfg flush [] QSt.init r
    else spOutside cfg flush t.code t.val r

def singlePass (cfg : Cfg) (flush : Bool) (f : List Tag) : Except Err (List Ent) :=
  match spHeader (-1) f with
  | .error e => .error e
  | .ok (entities, prevCode, rest) =>
    if entities then spInside cfg flush [] QSt.init (compile cfg rest)
    else spOutside cfg flush prevCode "" (compile cfg rest)

/-! ## opendxf(): fileindex.load + IterDXF -/

structure IEntry where
  val : String
  tags : Group            -- the bytes from this structure tag up to the next indexed structure tag
  deriving Repr

structure ISt where
  entries : List IEntry                 -- latest first (code-0 entries only: `_load_index` drops the rest)
  sections : List (String × Nat)        -- name -> position of the SECTION entry in `entries` (counted from the start)
  header : Bool
  prevCode : Int
  prevVal : String
  version : String
  pending : Option Bool                 -- inside `load_header_var()`: `some true` for $ACADVER, `some false` for $DWGCODEPAGE
  deriving Repr

def addToHead (t : Tag) : List IEntry → List IEntry
  | [] => []
  | e :: r => { e with tags := e.tags ++ [t] } :: r

/-- `fileindex.load` main loop; `maxCode` = 1071 -/
def indexLoop (maxCode : Nat) (st : ISt) : List Tag → Except Err ISt
  | [] => .error .dxfStructureError                        -- `int(b"")` / "Unexpected end of file"
  | t :: r =>
    if t.code > maxCode then .error .dxfStructureError
    else
      match st.pending with
      | some isVer =>
        -- `load_header_var()`: the next tag is the value, whatever it is; `continue`
        indexLoop maxCode { st with entries := addToHead t st.entries, pending := none,
                                    version := if isVer then t.val else st.version } r
      | none =>
        if st.header ∧ t.code = 9 then
          if t.val = "$ACADVER" then indexLoop maxCode { st with entries := addToHead t st.entries, pending := some true } r
          else if t.val = "$DWGCODEPAGE" then
            indexLoop maxCode { st with entries := addToHead t st.entries, pending := some false } r
          else indexLoop maxCode { st with entries := addToHead t st.entries } r
        else if t.code = 0 then
          let st' := { st with entries := ⟨t.val, [t]⟩ :: st.entries, prevCode := 0, prevVal := t.val }
          if t.val = "EOF" then .ok st' else indexLoop maxCode st' r
        else if t.code = 2 ∧ st.prevCode = 0 ∧ st.prevVal = "SECTION" then
          indexLoop maxCode { st with entries := addToHead t st.entries, header := t.val = "HEADER",
                                      sections := dictSet st.sections t.val (st.entries.length - 1),
                                      prevCode := 2, prevVal := t.val } r
        else indexLoop maxCode { st with entries := addToHead t st.entries, prevCode := t.code, prevVal := t.val } r

/-- `IterDXF.load_entities(start, requested)` + the queue of `IterDXF.modelspace`; `es` = index[start:] -/
def indexEntities (cfg : Cfg) (st : QSt) : List IEntry → Except Err (List Ent)
  | [] => .error .indexError
  | e :: r =>
    if e.val = "ENDSEC" then .ok (st.finish cfg)
    else
      match r with
      | [] => .error .indexError                           -- `self.structure.index[index]`
      | _ =>
        if cfg.req e.val then
          match qStep cfg st e.tags with
          | .error x => .error x
          | .ok st' => indexEntities cfg st' r
        else indexEntities cfg st r

def indexModelspace (cfg : Cfg) (maxCode : Nat) (f : List Tag) : Except Err (List Ent) :=
  match indexLoop maxCode ⟨[], [], false, -1, "", "AC1009", none⟩ f with
  | .error e => .error e
  | .ok st =>
    match dictGet st.sections "ENTITIES" with
    | none => .error .dxfStructureError                    -- ENTITIES section not found
    | some i =>
      if "AC1009" < st.version ∧ (dictGet st.sections "OBJECTS").isNone then .error .dxfStructureError
      else indexEntities cfg QSt.init (st.entries.reverse.drop (i + 1))

/-! ## recover: rebuild_sections + load_section_dict (ENTITIES part) -/

structure RSt where
  sections : List (List Tag)      -- closed sections, latest first, each in order
  collector : List Tag            -- in order
  inside : Bool
  orphans : List Tag
  deriving Repr

def rStep (st : RSt) (t : Tag) : RSt :=
  if t.code = 0 then
    if t.val = "SECTION" then
      -- open_section (closes an open one first)
      let st1 : RSt := if st.inside then { st with sections := st.collector :: st.sections, collector := [] } else st
      { st1 with collector := st1.collector ++ [t], inside := true }
    else if t.val = "ENDSEC" then
      if st.inside then { st with sections := st.collector :: st.sections, collector := [], inside := false }
      else { st with collector := [], inside := false }
    else if t.val = "EOF" then
      if st.inside then { st with sections := st.collector :: st.sections, collector := [], inside := false } else st
    else if st.inside then { st with collector := st.collector ++ [t] } else { st with orphans := st.orphans ++ [t] }
  else if st.inside then { st with collector := st.collector ++ [t] } else { st with orphans := st.orphans ++ [t] }

/-- `Recover.rebuild_sections`: closed sections in order (a section still open at the end of the stream is lost) -/
def rebuildSections (ts : List Tag) : List (List Tag) :=
  (ts.foldl rStep ⟨[], [], false, []⟩).sections.reverse

/-- `add_section`: sections of the same name are merged -/
def mergeSections : List (String × List Tag) → List (List Tag) → List (String × List Tag)
  | d, [] => d
  | d, s :: r =>
    match s with
    | _ :: name :: _ =>
      if name.code = 2 then
        match dictGet d name.val with
        | some old => mergeSections (dictSet d name.val (old ++ s.drop 2)) r
        | none => mergeSections (d ++ [(name.val, s)]) r
      else mergeSections d r                                -- missing section name tag: section ignored
    | _ => mergeSections d r                                -- a section of the single tag (0, SECTION): ignored as well

/-- modelspace of `recover.read` (front end structure only; repair filters, table rebuild and audit are not modelled) -/
def recoverModelspace (cfg : Cfg) (f : List Tag) : Except Err (List Ent) :=
  match dictGet (mergeSections [] (rebuildSections (compileB cfg (asciiLoad f)))) "ENTITIES" with
  | none => .ok []
  | some s => if cfg.managed "ENTITIES" then buildMsp cfg (groupTags s).tail else .ok []

/-! ## JSON tags -/

/-- one `[code, value]` pair of the JSON format: value is a string/number or a list of coordinates -/
inductive JTag where
  | single (code : Nat) (v : String)
  | point (code : Nat) (xs : List String)
  deriving DecidableEq, Repr

def expandPoint (code : Nat) : List String → Nat → List Tag
  | [], _ => []
  | x :: xs, i => ⟨code + i * 10, x⟩ :: expandPoint code xs (i + 1)

/-- `json_tag_loader`: coordinate lists of point codes become single tags, comments skipped, stop after EOF
    (a list value under a non-point code is passed on as it is: not representable here, `isPt` is then false) -/
def jsonLoad (isPt : Nat → Bool) : List JTag → List Tag
  | [] => []
  | .point c xs :: r => if isPt c then expandPoint c xs 0 ++ jsonLoad isPt r else jsonLoad isPt r
  | .single c v :: r =>
    if c = 0 ∧ v = "EOF" then [⟨c, v⟩]
    else if c = 999 then jsonLoad isPt r
    else ⟨c, v⟩ :: jsonLoad isPt r

/-- compiled tag as the tag writers receive it (`DXFTag` or `DXFVertex`) -/
inductive WTag where
  | single (code : Nat) (v : String)
  | vertex (code : Nat) (xs : List String)
  deriving DecidableEq, Repr

/-- `TagWriter.write_tag` / `DXFVertex.dxftags()` -/
def asciiWrite : List WTag → List Tag
  | [] => []
  | .single c v :: r => ⟨c, v⟩ :: asciiWrite r
  | .vertex c xs :: r => expandPoint c xs 0 ++ asciiWrite r

/-- `JSONTagWriter.write_tag` (`compact`: a vertex is one pair with a coordinate list) -/
def jsonWrite (compact : Bool) : List WTag → List JTag
  | [] => []
  | .single c v :: r => .single c v :: jsonWrite compact r
  | .vertex c xs :: r =>
    if compact then .point c xs :: jsonWrite compact r
    else (expandPoint c xs 0).map (fun t => JTag.single t.code t.val) ++ jsonWrite compact r

/-! ## writers: tag structure -/

/-- one call of an `R12FastStreamWriter.add_*` method: the entity tags after the `(0, type)` tag;
    the polyline methods write POLYLINE, one VERTEX per point (faces included) and SEQEND -/
inductive R12Call where
  | simple (type : String) (attribs : List Tag)
  | polyline (attribs : List Tag) (vertices : List (List Tag))
  deriving Repr

def R12Call.emit : R12Call → List Tag
  | .simple ty a => ⟨0, ty⟩ :: a
  | .polyline a vs => (⟨0, "POLYLINE"⟩ :: a) ++ vs.flatMap (fun v => ⟨0, "VERTEX"⟩ :: v) ++ [⟨0, "SEQEND"⟩]

/-- `R12FastStreamWriter.__init__` (PREFACE = the fixed TABLES section, optional) ... `close()` -/
def r12File (preface : List Section) (calls : List R12Call) : List Tag :=
  preface.flatMap renderSec ++ (tSECTION :: ⟨2, "ENTITIES"⟩ :: (calls.flatMap R12Call.emit ++ [tENDSEC, tEOF]))

def R12Call.expected : R12Call → Ent
  | .simple ty a => Ent.single (⟨0, ty⟩ :: a)
  | .polyline a vs => ⟨⟨0, "POLYLINE"⟩ :: a, vs.map (fun v => ⟨0, "VERTEX"⟩ :: v), some [⟨0, "SEQEND"⟩]⟩

/-- `entity.export_dxf(writer)`: main entity, its sub-entities and SEQEND (Polyline / Insert export them themselves) -/
def Ent.flat (e : Ent) : List Tag :=
  if dxftype e.main = "INSERT" ∧ e.subs.isEmpty then e.main       -- `if self.attribs_follow:` = attribs exist
  else e.main ++ e.subs.flatten ++ (match e.seqend with | some s => s | none => [])

/-- an INSERT without ATTRIBs has no SEQEND (Insert.export_dxf would not write it back) -/
def Ent.exportable (e : Ent) : Bool := !(dxftype e.main == "INSERT" && e.subs.isEmpty && e.seqend.isSome)

/-- the second loop of `IterDXFWriter.write` on the unchanged tree: VERTEX + SEQEND of a POLYLINE, ATTRIB + SEQEND of an
    INSERT with attribs once more -/
def Ent.again (e : Ent) : List Tag :=
  if dxftype e.main = "POLYLINE" ∨ (dxftype e.main = "INSERT" ∧ !e.subs.isEmpty) then
    e.subs.flatten ++ (match e.seqend with | some s => s | none => [])
  else []

/-- `IterDXF.export(name)` ... `write(e)`* ... `close()`: everything up to the first entity of the ENTITIES section is
    copied, the entities are written (`dup`: with the second loop), ENDSEC, then (version > AC1009) the OBJECTS
    section is copied, EOF -/
def exportFile (dup : Bool) (pre : List Section) (written : List Ent) (objects : Option Section) : List Tag :=
  pre.flatMap renderSec
    ++ (tSECTION :: ⟨2, "ENTITIES"⟩ :: (written.flatMap (fun e => e.flat ++ (if dup then e.again else [])) ++ [tENDSEC]))
    ++ (match objects with | some o => renderSec o | none => []) ++ [tEOF]

/-- what an r12writer call may contain -/
def r12CallOK (cfg : Cfg) : R12Call → Bool
  | .simple ty a => a.all nz && ty != "SECTION" && ty != "ENDSEC" && ty != "EOF" && (expects cfg (⟨0, ty⟩ :: a)).isNone
  | .polyline a vs => a.all nz && vs.all (fun v => v.all nz)

/-- what the tag writers are given: the codes of vertices are point codes; coordinates are never comments or EOF -/
def wtagOK (isPt : Nat → Bool) : WTag → Bool
  | .single _ _ => true
  | .vertex c xs => isPt c && (expandPoint c xs 0).all (fun t => t.code != 999 && t != tEOF)

end EzdxfVerif.Readers

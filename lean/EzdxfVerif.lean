-- Root of the EzdxfVerif library.  Props modules are built per property by ./check;
-- `lake build` (this root) builds the core-only models used by the drivers.
import EzdxfVerif.Model.Text
